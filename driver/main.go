// vdriver orchestrates the verification checks: builds the harness child from
// /repo's working tree (overlay, build tag verif), runs scenario children in
// parallel, runs the offline checkers, classifies violations against
// known_findings.json, and writes evidence.
package main

import (
	"bufio"
	"bytes"
	"context"
	"encoding/json"
	"fmt"
	"os"
	"os/exec"
	"path/filepath"
	"regexp"
	"sort"
	"strconv"
	"strings"
	"sync"
	"syscall"
	"time"
)

var (
	verifDir = envOr("VERIF_DIR", "/verif")
	repoDir  = envOr("VERIF_REPO", "/repo")
	jobs     = envInt("VERIF_JOBS", 16)
)

func envOr(k, d string) string {
	if v := os.Getenv(k); v != "" {
		return v
	}
	return d
}

func envInt(k string, d int) int {
	if v := os.Getenv(k); v != "" {
		if n, err := strconv.Atoi(v); err == nil {
			return n
		}
	}
	return d
}

func main() {
	if len(os.Args) < 2 {
		fmt.Fprintln(os.Stderr, "usage: vdriver check <id> quick|thorough | replay <id> <path> | selftest")
		os.Exit(2)
	}
	switch os.Args[1] {
	case "check":
		if len(os.Args) < 4 {
			fmt.Fprintln(os.Stderr, "usage: vdriver check <id> quick|thorough")
			os.Exit(2)
		}
		os.Exit(check(os.Args[2], os.Args[3], ""))
	case "replay":
		if len(os.Args) < 4 {
			fmt.Fprintln(os.Stderr, "usage: vdriver replay <id> <path>")
			os.Exit(2)
		}
		os.Exit(check(os.Args[2], "quick", os.Args[3]))
	case "selftest":
		os.Exit(selftest())
	default:
		fmt.Fprintln(os.Stderr, "unknown command")
		os.Exit(2)
	}
}

// Stage is one group of child processes of a property's plan.
type Stage struct {
	Name     string
	Scenario string
	Args     string // k=v,k=v
	Children int
	Cases    int // per child
	Race     bool
	Env      []string
	Timeout  time.Duration // per child watchdog (inconclusive when it fires)
	// MayDie: the child is expected to be killed (crash scenarios run their own
	// sub-children; stages themselves never die legitimately).
	GOMAXPROCS int
}

type Plan struct {
	Prop        string
	Level       string // exploration | fault_enumeration
	Rule        string
	Assumptions []string
	Stages      func(tier string) []Stage
	// Post runs offline checkers over all lines (e.g. porcupine); may append violations / stats.
	Post func(res *Result)
	// KeepEvents keeps "ev" lines for Post.
	KeepEvents bool
	// Exhaustive marks the evidence as exhaustive when the scenario reports stat "exhaustive_box"=children.
	Exhaustive bool
}

type Viol struct {
	Case  string         `json:"case"`
	Prop  string         `json:"prop"`
	Class string         `json:"class"`
	Msg   string         `json:"msg"`
	Raw   map[string]any `json:"raw"`
	Child string         `json:"child"`
}

type Result struct {
	Prop         string
	Cases        map[string]map[string]any // id -> case line
	CaseOrder    []string
	Nontrivial   map[string]bool
	Viols        []Viol
	Inconclusive []map[string]any
	Stats        map[string]int64
	Events       []map[string]any // "ev" lines (kept only if plan wants them)
	KeepEvents   bool
	ChildrenRun  int
	ChildrenDied int
	RaceBlocks   []string
	mu           sync.Mutex
}

func check(prop, tier, replay string) int {
	start := time.Now()
	plan, ok := plans[prop]
	if !ok {
		fmt.Fprintf(os.Stderr, "ERROR no plan for property %s\n", prop)
		return 2
	}
	seed := int64(envInt("VERIF_SEED", 1))
	runID := fmt.Sprintf("%s-%s-%d-%d", prop, tier, os.Getpid(), time.Now().UnixNano()%1000000)
	scratch := filepath.Join(envOr("VERIF_SCRATCH", "/var/tmp/verif"), runID)
	if err := os.MkdirAll(scratch, 0o755); err != nil {
		fmt.Fprintln(os.Stderr, "ERROR", err)
		return 2
	}
	defer os.RemoveAll(scratch)

	stages := plan.Stages(tier)
	needRace, needPlain := false, false
	for _, s := range stages {
		if s.Race {
			needRace = true
		} else {
			needPlain = true
		}
	}
	bins := map[bool]string{}
	var berr error
	var bwg sync.WaitGroup
	var bmu sync.Mutex
	for _, race := range []bool{false, true} {
		if (race && !needRace) || (!race && !needPlain) {
			continue
		}
		bwg.Add(1)
		go func(race bool) {
			defer bwg.Done()
			b, err := buildChild(scratch, race)
			bmu.Lock()
			defer bmu.Unlock()
			if err != nil {
				berr = err
			}
			bins[race] = b
		}(race)
	}
	bwg.Wait()
	if berr != nil {
		fmt.Fprintf(os.Stderr, "ERROR build failed: %v\n", berr)
		return 2
	}

	res := &Result{Prop: prop, Cases: map[string]map[string]any{}, Nontrivial: map[string]bool{}, Stats: map[string]int64{}, KeepEvents: plan.KeepEvents}
	if replay != "" {
		// run the first stage's scenario once with -replay
		st := stages[0]
		// crash witnesses are replayed by the crash stage
		if b, err := os.ReadFile(replay); err == nil && strings.Contains(string(b), `"crash": {`) {
			for _, c := range stages {
				if c.Scenario == "crashdrive" {
					st = c
				}
			}
		}
		// otherwise the stage that produced the witness (its child name is "<stage>-<n>")
		if b, err := os.ReadFile(replay); err == nil {
			var w struct {
				Child string `json:"child"`
			}
			if json.Unmarshal(b, &w) == nil {
				if i := strings.LastIndex(w.Child, "-"); i > 0 {
					for _, c := range stages {
						if c.Name == w.Child[:i] {
							st = c
						}
					}
				}
			}
		}
		st.Children = 1
		runStage(res, st, bins[st.Race], scratch, seed, tier, replay, 0)
	} else {
		base := 0
		for _, st := range stages {
			runStage(res, st, bins[st.Race], scratch, seed, tier, "", base)
			base += st.Children
		}
	}
	if plan.Post != nil {
		plan.Post(res)
	}

	// classify
	kf, err := loadKnown()
	if err != nil {
		fmt.Fprintln(os.Stderr, "ERROR known_findings.json:", err)
		return 2
	}
	exit := 0
	knownCount := map[string]int{}
	knownWhat := map[string]string{}
	var unlisted []Viol
	for _, v := range res.Viols {
		if v.Prop != prop {
			continue
		}
		if f := kf.match(v); f != nil {
			knownCount[f.Key]++
			knownWhat[f.Key] = f.What
			continue
		}
		unlisted = append(unlisted, v)
	}
	keys := make([]string, 0, len(knownCount))
	for k := range knownCount {
		keys = append(keys, k)
	}
	sort.Strings(keys)
	for _, k := range keys {
		fmt.Printf("KNOWN-FINDING: property=%s %s: %s (seen %d times in this run)\n", prop, k, knownWhat[k], knownCount[k])
	}
	// one VIOLATION line per distinct (class), with the first witness as replay
	seenClass := map[string]bool{}
	for _, v := range unlisted {
		if seenClass[v.Class] {
			continue
		}
		seenClass[v.Class] = true
		path := writeReplay(prop, v, res)
		fmt.Printf("VIOLATION property=%s replay=%s\n", prop, path)
		fmt.Printf("  class=%s %s\n", v.Class, v.Msg)
		exit = 1
	}

	wall := time.Since(start).Seconds()
	evOK := writeEvidence(plan, res, tier, seed, wall, len(unlisted), knownCount)
	fmt.Printf("%s %s: cases=%d nontrivial_distinct=%d violations=%d known=%d inconclusive=%d children=%d died=%d wall=%.1fs\n",
		prop, tier, len(res.Cases), len(res.Nontrivial), len(unlisted), len(knownCount), len(res.Inconclusive), res.ChildrenRun, res.ChildrenDied, wall)
	if exit == 0 && replay == "" && (!evOK || len(res.Cases) == 0) {
		fmt.Fprintf(os.Stderr, "ERROR the run observed nothing decidable (cases=%d)\n", len(res.Cases))
		return 2
	}
	return exit
}

// ---------- build

var buildMu sync.Mutex

func buildChild(scratch string, race bool) (string, error) {
	overlay := filepath.Join(scratch, "overlay.json")
	buildMu.Lock()
	if _, err := os.Stat(overlay); err != nil {
		if err := writeOverlay(overlay); err != nil {
			buildMu.Unlock()
			return "", err
		}
	}
	buildMu.Unlock()
	bin := filepath.Join(scratch, "vchild")
	args := []string{"build", "-tags", "verif", "-overlay", overlay}
	if race {
		bin += "-race"
		args = append(args, "-race")
	}
	args = append(args, "-o", bin, "./internal/verif/cmd/vchild")
	cmd := exec.Command("go", args...)
	cmd.Dir = repoDir
	cmd.Env = append(os.Environ(), "GOFLAGS=-mod=mod", "GOPROXY=off", "GOSUMDB=off", "GOTOOLCHAIN=local")
	outb, err := cmd.CombinedOutput()
	if err != nil {
		return "", fmt.Errorf("%v\n%s", err, outb)
	}
	return bin, nil
}

// writeOverlay maps /verif/harness/** into <repo>/internal/verif/** and the
// accessor files into their packages.
func writeOverlay(path string) error {
	repl := map[string]string{}
	h := filepath.Join(verifDir, "harness")
	err := filepath.Walk(h, func(p string, info os.FileInfo, err error) error {
		if err != nil {
			return err
		}
		if info.IsDir() || !strings.HasSuffix(p, ".go") {
			return nil
		}
		rel, _ := filepath.Rel(h, p)
		if strings.HasPrefix(rel, "access"+string(filepath.Separator)) {
			// access/<pkg path with __ for />.go -> <repo>/<pkg path>/zz_verif_access.go
			// access/<pkg path with __ for />[--<tag>].go -> <repo>/<pkg path>/zz_verif_access[_<tag>].go
			name := strings.TrimSuffix(filepath.Base(rel), ".go")
			tag := ""
			if i := strings.Index(name, "--"); i >= 0 {
				tag = "_" + name[i+2:]
				name = name[:i]
			}
			pkg := strings.ReplaceAll(name, "__", "/")
			if pkg == "root" {
				pkg = "."
			}
			repl[filepath.Join(repoDir, pkg, "zz_verif_access"+tag+".go")] = p
			return nil
		}
		repl[filepath.Join(repoDir, "internal", "verif", rel)] = p
		return nil
	})
	if err != nil {
		return err
	}
	badgerCommitHook(repl, filepath.Dir(path))
	b, _ := json.MarshalIndent(map[string]any{"Replace": repl}, "", " ")
	return os.WriteFile(path, b, 0o644)
}

// badgerCommitHook instruments the storage engine for the crash stages: the overlay replaces badger's txn.go by a copy
// in which a successful Txn.Commit calls a package-level hook variable (nil unless a scenario sets it), so that a
// writer process can be killed right after its k-th commit - also where the hub has no hook point of its own. Nothing
// under the module cache or /repo is touched; if the expected line is not found the build goes on without the hook.
func badgerCommitHook(repl map[string]string, scratch string) {
	gomod, err := os.ReadFile(filepath.Join(repoDir, "go.mod"))
	if err != nil {
		return
	}
	m := regexp.MustCompile(`github.com/dgraph-io/badger/v4 (v[0-9][^\s]*)`).FindSubmatch(gomod)
	if m == nil {
		return
	}
	out, err := exec.Command("go", "env", "GOMODCACHE").Output()
	if err != nil {
		return
	}
	dir := filepath.Join(strings.TrimSpace(string(out)), "github.com", "dgraph-io", "badger", "v4@"+string(m[1]))
	src, err := os.ReadFile(filepath.Join(dir, "txn.go"))
	const old = "\treturn txnCb()\n"
	if err != nil || bytes.Count(src, []byte(old)) != 1 {
		return
	}
	patched := bytes.Replace(src, []byte(old), []byte("\tif err := txnCb(); err != nil {\n\t\treturn err\n\t}\n\tif VerifCommitHook != nil {\n\t\tVerifCommitHook()\n\t}\n\treturn nil\n"), 1)
	patched = append(patched, []byte("\n// VerifCommitHook is called after every successful Txn.Commit (verification builds only).\nvar VerifCommitHook func()\n")...)
	pt := filepath.Join(scratch, "badger_txn_hooked.go")
	if os.WriteFile(pt, patched, 0o644) != nil {
		return
	}
	repl[filepath.Join(dir, "txn.go")] = pt
}

// ---------- running children

func runStage(res *Result, st Stage, bin, scratch string, seed int64, tier, replay string, base int) {
	sem := make(chan struct{}, jobs)
	var wg sync.WaitGroup
	for i := 0; i < st.Children; i++ {
		wg.Add(1)
		sem <- struct{}{}
		go func(i int) {
			defer wg.Done()
			defer func() { <-sem }()
			runChild(res, st, bin, scratch, seed, tier, replay, base+i)
		}(i)
	}
	wg.Wait()
}

func runChild(res *Result, st Stage, bin, scratch string, seed int64, tier, replay string, idx int) {
	name := fmt.Sprintf("%s-%d", st.Name, idx)
	cdir := filepath.Join(scratch, "c-"+name)
	_ = os.MkdirAll(cdir, 0o755)
	defer os.RemoveAll(cdir)
	outf := filepath.Join(scratch, "out-"+name+".jsonl")
	errf := filepath.Join(scratch, "err-"+name+".txt")
	cseed := seed*100003 + int64(idx)
	args := []string{"-scenario", st.Scenario, "-seed", strconv.FormatInt(cseed, 10), "-cases", strconv.Itoa(st.Cases), "-tier", tier,
		"-scratch", cdir, "-out", outf, "-args", st.Args}
	if replay != "" {
		args = append(args, "-replay", replay)
	}
	to := st.Timeout
	if to == 0 {
		to = 20 * time.Minute
	}
	ctx, cancel := context.WithTimeout(context.Background(), to+30*time.Second)
	defer cancel()
	cmd := exec.CommandContext(ctx, bin, args...)
	cmd.Env = append(os.Environ(), st.Env...)
	cmd.Env = append(cmd.Env, "VERIF_SEED="+strconv.FormatInt(cseed, 10))
	if st.GOMAXPROCS > 0 {
		cmd.Env = append(cmd.Env, "GOMAXPROCS="+strconv.Itoa(st.GOMAXPROCS))
	}
	if st.Race {
		cmd.Env = append(cmd.Env, "GORACE=halt_on_error=0 log_path="+filepath.Join(scratch, "race-"+name))
	}
	ef, _ := os.Create(errf)
	cmd.Stdout = ef
	cmd.Stderr = ef
	cmd.SysProcAttr = &syscall.SysProcAttr{Setpgid: true}
	timedOut := false
	if err := cmd.Start(); err != nil {
		ef.Close()
		res.mu.Lock()
		res.Viols = append(res.Viols, Viol{Prop: res.Prop, Class: "harness-start", Msg: err.Error(), Child: name})
		res.mu.Unlock()
		return
	}
	timer := time.AfterFunc(to, func() {
		timedOut = true
		_ = syscall.Kill(-cmd.Process.Pid, syscall.SIGQUIT) // goroutine dump to errf
		time.Sleep(3 * time.Second)
		_ = syscall.Kill(-cmd.Process.Pid, syscall.SIGKILL)
	})
	werr := cmd.Wait()
	timer.Stop()
	ef.Close()

	lines, done, lastBegin := readLines(outf)
	res.mu.Lock()
	defer res.mu.Unlock()
	res.ChildrenRun++
	curCase := ""
	for _, m := range lines {
		switch m["t"] {
		case "case":
			id, _ := m["id"].(string)
			curCase = id
			if _, ok := res.Cases[id]; !ok {
				res.Cases[id] = m
				res.CaseOrder = append(res.CaseOrder, id)
			}
			if nt, _ := m["nontrivial"].(bool); nt {
				res.Nontrivial[id] = true
			}
		case "viol":
			v := Viol{Raw: m, Child: name}
			v.Case, _ = m["case"].(string)
			v.Prop, _ = m["prop"].(string)
			v.Class, _ = m["class"].(string)
			v.Msg, _ = m["msg"].(string)
			res.Viols = append(res.Viols, v)
		case "inconclusive":
			res.Inconclusive = append(res.Inconclusive, m)
		case "stat":
			k, _ := m["k"].(string)
			v, _ := m["v"].(float64)
			if strings.HasPrefix(k, "max:") {
				if int64(v) > res.Stats[k] {
					res.Stats[k] = int64(v)
				}
			} else {
				res.Stats[k] += int64(v)
			}
		case "ev":
			if res.KeepEvents {
				m["child"] = name
				res.Events = append(res.Events, m)
			}
		case "error":
			msg, _ := m["msg"].(string)
			res.Inconclusive = append(res.Inconclusive, map[string]any{"t": "inconclusive", "why": "scenario-error: " + msg, "child": name})
		}
	}
	if !done {
		tail := tailFile(errf, 60)
		if timedOut {
			res.Inconclusive = append(res.Inconclusive, map[string]any{"t": "inconclusive", "why": "watchdog", "child": name, "case": curCase, "last_begin": lastBegin, "stderr_tail": tail})
		} else {
			res.ChildrenDied++
			res.Viols = append(res.Viols, Viol{Case: curCase, Prop: res.Prop, Class: "process-died", Child: name,
				Msg: fmt.Sprintf("child process died (%v) during case %s", werr, curCase),
				Raw: map[string]any{"last_begin": lastBegin, "stderr_tail": tail, "exit": fmt.Sprint(werr)}})
		}
	}
	if st.Race {
		matches, _ := filepath.Glob(filepath.Join(scratch, "race-"+name+".*"))
		for _, m := range matches {
			b, _ := os.ReadFile(m)
			for _, blk := range splitRaceBlocks(string(b)) {
				res.RaceBlocks = append(res.RaceBlocks, blk)
			}
		}
	}
}

func readLines(path string) (lines []map[string]any, done bool, lastBegin map[string]any) {
	f, err := os.Open(path)
	if err != nil {
		return nil, false, nil
	}
	defer f.Close()
	sc := bufio.NewScanner(f)
	sc.Buffer(make([]byte, 1<<20), 1<<28)
	for sc.Scan() {
		var m map[string]any
		if err := json.Unmarshal(sc.Bytes(), &m); err != nil {
			continue
		}
		switch m["t"] {
		case "done":
			done = true
			continue
		case "begin":
			lastBegin = m
			continue
		case "ack":
			continue
		}
		lines = append(lines, m)
	}
	return
}

func tailFile(path string, n int) string {
	b, err := os.ReadFile(path)
	if err != nil {
		return ""
	}
	ls := strings.Split(string(b), "\n")
	// a SIGQUIT dump: the main goroutine is what matters
	if strings.Contains(string(b), "SIGQUIT: quit") {
		for i, l := range ls {
			if strings.HasPrefix(l, "goroutine 1 ") {
				end := i + n
				if end > len(ls) {
					end = len(ls)
				}
				return "SIGQUIT: quit\n" + strings.Join(ls[i:end], "\n")
			}
		}
	}
	// prefer the first fatal / panic line region
	for i, l := range ls {
		if strings.HasPrefix(l, "fatal error:") || strings.HasPrefix(l, "panic:") {
			end := i + n
			if end > len(ls) {
				end = len(ls)
			}
			return strings.Join(ls[i:end], "\n")
		}
	}
	if len(ls) > n {
		ls = ls[len(ls)-n:]
	}
	return strings.Join(ls, "\n")
}

func splitRaceBlocks(s string) []string {
	var blocks []string
	parts := strings.Split(s, "==================")
	for _, p := range parts {
		if strings.Contains(p, "WARNING: DATA RACE") {
			blocks = append(blocks, strings.TrimSpace(p))
		}
	}
	return blocks
}

// ---------- known findings

type Finding struct {
	Property string `json:"property"`
	Key      string `json:"key"`
	Status   string `json:"status"`
	Commit   string `json:"commit,omitempty"`
	What     string `json:"what"`
	Witness  string `json:"witness,omitempty"`
	Why      string `json:"why_not_fixed,omitempty"`
}

type Known struct {
	Findings []Finding `json:"findings"`
}

func loadKnown() (*Known, error) {
	b, err := os.ReadFile(filepath.Join(verifDir, "known_findings.json"))
	if err != nil {
		if os.IsNotExist(err) {
			return &Known{}, nil
		}
		return nil, err
	}
	k := &Known{}
	if err := json.Unmarshal(b, k); err != nil {
		return nil, err
	}
	return k, nil
}

func (k *Known) match(v Viol) *Finding {
	for i := range k.Findings {
		f := &k.Findings[i]
		if f.Status == "open" && f.Property == v.Prop && f.Key == v.Class {
			return f
		}
	}
	return nil
}

// ---------- replay + evidence

func writeReplay(prop string, v Viol, res *Result) string {
	dir := filepath.Join(envOr("VERIF_REPLAY_DIR", filepath.Join(verifDir, "replays")), prop)
	_ = os.MkdirAll(dir, 0o755)
	name := fmt.Sprintf("%s-%s.json", nz(v.Case, "nocase"), sanitize(v.Class))
	path := filepath.Join(dir, name)
	var ops any
	if c, ok := res.Cases[v.Case]; ok {
		ops = c["ops"]
	}
	b, _ := json.MarshalIndent(map[string]any{"property": prop, "class": v.Class, "msg": v.Msg, "case": v.Case, "ops": ops, "violation": v.Raw, "child": v.Child}, "", " ")
	_ = os.WriteFile(path, b, 0o644)
	return path
}

func nz(s, d string) string {
	if s == "" {
		return d
	}
	return s
}

func sanitize(s string) string {
	r := []rune(s)
	for i, c := range r {
		if !(c >= 'a' && c <= 'z' || c >= 'A' && c <= 'Z' || c >= '0' && c <= '9' || c == '-' || c == '_') {
			r[i] = '_'
		}
	}
	return string(r)
}

func writeEvidence(plan Plan, res *Result, tier string, seed int64, wall float64, nviol int, known map[string]int) bool {
	var samples []any
	for _, id := range res.CaseOrder {
		if res.Nontrivial[id] {
			samples = append(samples, trimSample(res.Cases[id]))
			if len(samples) >= 3 {
				break
			}
		}
	}
	if len(samples) == 0 {
		for _, id := range res.CaseOrder {
			samples = append(samples, trimSample(res.Cases[id]))
			if len(samples) >= 2 {
				break
			}
		}
	}
	tagCounts := map[string]int{}
	for _, c := range res.Cases {
		if ts, ok := c["tags"].([]any); ok {
			for _, t := range ts {
				if s, ok := t.(string); ok {
					tagCounts[s]++
				}
			}
		}
	}
	cov := map[string]any{
		"evaluations":         len(res.Cases),
		"distinct_nontrivial": len(res.Nontrivial),
		"rule":                plan.Rule,
		"samples":             samples,
		"monitor_counters":    res.Stats,
		"case_tags":           tagCounts,
		"inconclusive":        len(res.Inconclusive),
		"children_run":        res.ChildrenRun,
		"children_died":       res.ChildrenDied,
		"known_findings_seen": known,
	}
	if len(res.Inconclusive) > 0 {
		n := len(res.Inconclusive)
		if n > 3 {
			n = 3
		}
		cov["inconclusive_samples"] = res.Inconclusive[:n]
	}
	if len(res.RaceBlocks) > 0 || res.Stats["race_runs"] > 0 {
		cov["race_blocks_total"] = len(res.RaceBlocks)
		cov["race_blocks_distinct"] = len(dedupeRace(res.RaceBlocks))
	}
	if plan.Exhaustive && res.Stats["exhaustive_box_complete"] > 0 && res.Stats["exhaustive_box_incomplete"] == 0 {
		cov["exhaustive"] = true
	}
	ev := map[string]any{
		"property_id": plan.Prop,
		"tier":        tier,
		"seed":        seed,
		"level":       plan.Level,
		"coverage":    cov,
		"assumptions": plan.Assumptions,
		"wall_s":      wall,
		"violations":  nviol,
	}
	evDir := envOr("VERIF_EVIDENCE_DIR", filepath.Join(verifDir, "evidence")) // scratch dir when a seeded change is evaluated
	_ = os.MkdirAll(evDir, 0o755)
	b, _ := json.MarshalIndent(ev, "", " ")
	_ = os.WriteFile(filepath.Join(evDir, plan.Prop+".json"), b, 0o644)
	return len(res.Cases) >= 1
}

func trimSample(c map[string]any) any {
	b, _ := json.Marshal(c)
	if len(b) > 6000 {
		return map[string]any{"id": c["id"], "tags": c["tags"], "truncated_json": string(b[:6000])}
	}
	return c
}
