package main

import (
	"fmt"
	"regexp"
	"strings"
	"time"
)

// C09 — a full sync deletes exactly what the completed sync did not contain.

var c09SyncState = regexp.MustCompile(`server\.\(\*Dataset\)\.(StartFullSync|StartFullSyncWithLease|RefreshFullSyncLease|ReleaseFullSyncLease|CompleteFullSync|FullSyncStarted|StoreEntitiesWithTransaction)`)

func init() {
	plans["C09"] = Plan{Prop: "C09", Level: "exploration",
		Rule: "seeded histories (9-20 ops; the first 1 (quick) / 4 (thorough) cases of every plain child are large-dataset cases (the next 2 / 10, in race children 1 / 3, are pipeline cases: a real fullsync job - scheduler-built job object, DatasetSource -> JavaScript transform that drops ids -> DatasetSink, batchSize 1-3 - into a sink that already holds most of the source plus stale entities; in 70% the filter empties one complete source page that is not the last): 1100-2300 entities, a sync that re-sends a prefix / a suffix / all but one page of 1000 / a random 90% / a prefix without its head; of the others 30% open with one of 10 directed orders, then a random walk) over one dataset of HTTP start/batch/end requests (matching, foreign, missing sync id — also id-less starts and ends) through the real echo router and handler, POST /transactions writes into the dataset (real handler, Store.ExecuteTransaction), " +
			"end requests whose request context is cancelled before the request or at ds.completeFullSync.begin (client gone / timed out; HTTP and job), sleeps of 3.2 lease timeouts after such a failed end, " +
			"job ends during which (from the hook point ds.completeFullSync.begin, on the end's goroutine) another HTTP or job sync is started, " +
			"job-style StartFullSync/StoreEntities/CompleteFullSync calls (what jobs.datasetSink does), header-less writes, writes of an incremental job, sleeps past the lease (100-200 ms) " +
			"and groups of concurrent requests; 60% of the cases stretch ds.lease.afterDone / web.fullsync.beforeRelease / ds.completeFullSync.begin. " +
			"The feed is read before and after every op and after a final sleep; verdicts key on status codes and feed contents only. " +
			"Distinct = hash of (lease, hook schedule, history). Non-trivial (measured at run time) = at least one sync completed (end answered 200 / job end returned nil for the current sync) " +
			"AND at least one of: a foreign-id batch/end was issued during a sync, a sync was superseded by another start, a lease expiry was observed (end answered 410 or the started flag dropped across a sleep); a pipeline case is non-trivial when its job run succeeded over more than one source page with a filter that drops at least one source entity",
		Assumptions: []string{
			"lease expiry is a timing fact: it is never predicted, only read off the responses (410) — a sync that the hub keeps alive longer than its lease is not a violation",
			"an end request answered 410 may or may not have stored its body (counted, not demanded); it must not append tombstones",
			"job-driven syncs are driven at the Dataset API exactly as jobs.datasetSink does (StartFullSync / StoreEntities / CompleteFullSync); the scheduler and pipeline are not in the loop",
			"a write answered 200 that ran concurrently with a completing end may be ordered before or after the completion: its entities may get at most one tombstone and must be live afterwards",
			"race-detector blocks decide only when one side is a runtime map access (the normal runtime kills the process on those); other blocks on the sync state are reported as counters",
			"an HTTP end request can only be the end of an HTTP sync: answered 200 while a job-driven sync is the current one it is a violation (HEAD answers 410)",
			"an HTTP sync whose own end request was refused with 5xx is not completed; a retry that the hub answers 200 is judged by the completion rule. Once the HISTORY has ordered sleeps of >= 3 lease timeouts after the refusal with no accepted request of that sync in between, the sync must be dead (a non-matching write answered 409 or a late end answered 200 is a violation). This is the only verdict that uses a duration, and it is the requested sleep of the history (a lower bound of the real wait), never a measured time",
			"a start issued from inside a job's end request: either the end completes ITS sync (answered nil: judged against the sync that was current before the start, the start's body may get at most one tombstone) or the start supersedes it (error / no effect); in both cases the new sync is the current one afterwards and is judged by its own batches and end",
			"a fullsync job recorded as successful is judged with 'written since the start' = the ids of its SOURCE that its transform lets through (source + filter, not what the run happened to write): they must be live with the source content, every other live sink entity gets exactly one tombstone. Source entities have one version each and none is deleted",
			"a transaction carries no sync id; answered 200 it is a write into the dataset and counts as written since the start of whatever sync is running",
			"the body of a refused (410/5xx) end request issued inside another sync may or may not have been stored: its entities may get at most one tombstone when that sync completes",
		},
		Stages: func(tier string) []Stage {
			n, c, rn, rc := 12, 12, 6, 10
			if tier == "thorough" {
				n, c, rn, rc = 16, 300, 8, 100
			}
			bulk, pipe, rpipe := "1", "2", "1"
			if tier == "thorough" {
				bulk, pipe, rpipe = "4", "10", "3"
			}
			return []Stage{
				{Name: "seq", Scenario: "c09fullsync", Args: "par=12,hooks=60,httpsup=1,pipe=" + pipe + ",bulk=" + bulk, Children: n, Cases: c, Timeout: 14 * time.Minute},
				{Name: "race", Scenario: "c09fullsync", Args: "par=60,hooks=50,race=1,httpsup=1,pipe=" + rpipe, Children: rn, Cases: rc, Race: true, Timeout: 14 * time.Minute},
			}
		},
		Post: c09Post,
	}
}

func c09Post(res *Result) {
	if res.Stats == nil {
		res.Stats = map[string]int64{}
	}
	res.Stats["race_runs"]++
	distinct := dedupeRace(res.RaceBlocks)
	res.Stats["race_blocks_total"] = int64(len(res.RaceBlocks))
	res.Stats["race_blocks_distinct"] = int64(len(distinct))
	seenClass := map[string]bool{}
	for _, k := range sortedKeys(distinct) {
		b := distinct[k]
		onSync := c09SyncState.MatchString(b) || strings.Contains(b, "RefreshFullSyncLease.func1")
		if crashCapable(b) {
			res.Stats["race_blocks_distinct_crash_capable"]++
			class := "race-crash-capable-map-access"
			if onSync && strings.Contains(b, "CompleteFullSync") {
				class = "race-crash-capable-seen-set"
			}
			if seenClass[class] {
				continue
			}
			seenClass[class] = true
			res.Viols = append(res.Viols, Viol{Prop: "C09", Class: class,
				Msg: "race detector: unsynchronised runtime map access (the normal runtime aborts the process with 'concurrent map read and map write' on this): " + c09RaceSummary(b),
				Raw: map[string]any{"race_block": b}})
			continue
		}
		if onSync {
			res.Stats["race_blocks_distinct_on_sync_state"]++
		} else {
			res.Stats["race_blocks_distinct_elsewhere"]++
		}
	}
}

// c09RaceSummary: the first datahub frame of each side.
func c09RaceSummary(b string) string {
	var tops []string
	want := false
	for _, l := range strings.Split(b, "\n") {
		t := strings.TrimSpace(l)
		if strings.HasPrefix(t, "Read at") || strings.HasPrefix(t, "Write at") || strings.HasPrefix(t, "Previous read at") || strings.HasPrefix(t, "Previous write at") {
			want = true
			continue
		}
		if want && strings.HasPrefix(t, "github.com/mimiro-io/datahub/internal/") && !strings.Contains(t, "/verif/") {
			if i := strings.Index(t, "("); i > 0 {
				// keep receiver-qualified name
				if j := strings.LastIndex(t, ")"); j > i {
					t = t[:j+1]
				}
			}
			tops = append(tops, strings.TrimPrefix(t, "github.com/mimiro-io/datahub/internal/"))
			want = false
		}
	}
	return fmt.Sprint(tops)
}
