package main

import "time"

func init() {
	plans["C13"] = Plan{Prop: "C13", Level: "exploration", KeepEvents: true,
		Rule:        "one case = one concurrent history: 8 writer goroutines (assert expansion, store entities whose ids/keys live in new namespaces through the real parser, compact URIs through a contextual store) and 6 reader goroutines (lookup, expand, marshal Dataset.GetContext(), iterate+marshal GetGlobalContext) x 60 ops over 14 generated expansions of mixed shapes, all goroutines reaching the same new expansion at about the same time; plus one round-trip case per child over ~400 generated URI shapes (hash/slash namespaces, empty local part, colons, '#'/'/' mixtures, http and https). Deciding monitors: porcupine 'unset or set once forever' per expansion, global injectivity of every (expansion,prefix) and (URI,internal id) pair observed incl. after a restart, round trip expand(compact(u)) == u, panics / inconsistent answers / process death, crash-capable race blocks under -race. Non-trivial = some new expansion was asserted by two goroutines whose calls overlapped",
		Assumptions: []string{"a URI the hub refuses to compact is not a round-trip violation", "race blocks without a runtime map access are counted, not judged", "crash points in the id path are exercised by the C04 crash protocol (cross-index scan: uri->id and id->uri mutually inverse)"},
		Stages: func(tier string) []Stage {
			mk := func(name string, gmp, children, cases int, race bool) Stage {
				return Stage{Name: name, Scenario: "c13ns", Args: "props=C13", Children: children, Cases: cases, Race: race, GOMAXPROCS: gmp, Timeout: 20 * time.Minute}
			}
			if tier == "thorough" {
				return []Stage{mk("g16", 16, 8, 12, false), mk("g4", 4, 8, 12, false), mk("g2", 2, 4, 12, false), mk("race", 8, 8, 4, true)}
			}
			return []Stage{mk("g16", 16, 6, 3, false), mk("g2", 2, 3, 2, false), mk("race", 8, 4, 1, true)}
		},
		Post: func(res *Result) {
			checkNamespaces(res, "C13")
			raceViolations(res, "C13")
		},
	}
}
