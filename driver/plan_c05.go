package main

import (
	"fmt"
	"os"
	"regexp"
	"strconv"
	"strings"
	"time"
)

const c05Hooks = "VERIF_HOOKS=txn.afterLock=sleep:300us%40;ds.store.afterIDCommit=sleep:150us%25;ds.store.afterCommit=sleep:150us%25;txn.afterIDCommit=sleep:150us%25;ds.changes.afterEntry=sleep:100us%20;ds.entities.afterEntry=sleep:100us%20"

// raceViolations classifies race-detector blocks: a block where one side is a runtime map
// access is crash-capable (the normal runtime aborts the process) and violates "never crashes".
func raceViolations(res *Result, prop string) {
	d := dedupeRace(res.RaceBlocks)
	res.Stats["race_blocks_total"] = int64(len(res.RaceBlocks))
	res.Stats["race_blocks_distinct"] = int64(len(d))
	cc := 0
	for _, k := range sortedKeys(d) {
		b := d[k]
		if crashCapable(b) && !cowPublication(b) {
			cc++
			res.Viols = append(res.Viols, Viol{Prop: prop, Class: "crash-capable-race:" + raceSite(b), Msg: "data race with a runtime map access on one side (the non-race runtime aborts the process on it): " + raceSite(b), Raw: map[string]any{"block": b}})
		}
	}
	res.Stats["race_blocks_crash_capable"] = int64(cc)
}

// cowPublication: the write side fills a freshly made private map that is published afterwards by
// swapping a pointer (copy-on-write). The race detector reports the unsynchronised publication as a
// map race, but no map is ever written while a reader can reach it, so the runtime's concurrent-map
// abort cannot fire. Known sites (write side): DsManager.DeleteDataset building the new deleted-set.
func cowPublication(b string) bool {
	i := strings.Index(b, "runtime.mapassign")
	if i < 0 {
		return false
	}
	rest := b[i:]
	if j := strings.Index(rest, "\n\n"); j > 0 {
		rest = rest[:j]
	}
	lines := strings.Split(rest, "\n")
	for k, l := range lines {
		if strings.Contains(l, "runtime.mapassign") && k+3 < len(lines) {
			if !strings.Contains(lines[k+2], "server.(*DsManager).DeleteDataset()") {
				return false
			}
			// ... and only while the assignment at that source line really goes into a local (private) map:
			// an insert into the shared map itself (x.y.deletedDatasets[id] = true) is the crash-capable kind
			return assignsIntoLocalMap(strings.TrimSpace(lines[k+3]))
		}
	}
	return false
}

var localMapAssign = regexp.MustCompile(`^\s*[A-Za-z_][A-Za-z0-9_]*\[[^\]]*\]\s*=[^=]`)

// assignsIntoLocalMap reads the source line named by a race-report frame ("/path/file.go:123 +0x..").
func assignsIntoLocalMap(frame string) bool {
	if i := strings.Index(frame, " "); i > 0 {
		frame = frame[:i]
	}
	i := strings.LastIndex(frame, ":")
	if i < 0 {
		return false
	}
	n, err := strconv.Atoi(frame[i+1:])
	if err != nil || n < 1 {
		return false
	}
	b, err := os.ReadFile(frame[:i])
	if err != nil {
		return false
	}
	src := strings.Split(string(b), "\n")
	if n > len(src) {
		return false
	}
	return localMapAssign.MatchString(src[n-1])
}

// raceSite names the outermost datahub functions of both stacks.
func raceSite(b string) string {
	var sites []string
	for _, part := range strings.Split(b, "\n\n") {
		first := ""
		for _, l := range strings.Split(part, "\n") {
			l = strings.TrimSpace(l)
			if strings.HasPrefix(l, "github.com/mimiro-io/datahub/internal/") && !strings.Contains(l, "/internal/verif/") {
				if i := strings.Index(l, "("); i > 0 {
					l = l[:i]
				}
				first = strings.TrimPrefix(l, "github.com/mimiro-io/datahub/internal/")
				break
			}
		}
		if first != "" && (len(sites) == 0 || sites[len(sites)-1] != first) {
			sites = append(sites, first)
		}
		if len(sites) == 2 {
			break
		}
	}
	return strings.Join(sites, "<->")
}

func init() {
	plans["C05"] = Plan{Prop: "C05", Level: "exploration", KeepEvents: true,
		Rule: "one case = one concurrent history: 8 writer + 4 reader goroutines x 30 ops over datasets da/db/dc and a 5-id pool (batches, two-dataset transactions naming the same pair in both orders, twin entities always written together, a pair entity only written by transactions, per-client scratch dataset create/write/delete, lookups / listings / feed reads), every written value carries a unique op id; PRNG sleeps at hook points between critical sections; GOMAXPROCS 2/4/16; one stage under the race detector. Deciding monitors: live wait-for cycle and lock-order cycle (hooks around WriteLock / DsManager.lock), per-dataset feed blocks vs op logs (contiguous, complete, program and real-time order, latest = fold), porcupine linearizability per (dataset, entity) register, atomic visibility of single-call reads, crash-capable race blocks, process death. Non-trivial = at least two writes to the same dataset overlapped in time",
		Assumptions: []string{"call/return stamps come from one atomic logical clock in the child; checkers use them only for real-time precedence",
			"a stall without a wait-for cycle among the hooked locks is inconclusive, not a violation",
			"race blocks that do not involve a runtime map access are counted in the evidence, not judged"},
		Stages: func(tier string) []Stage {
			mk := func(name string, gmp, children, cases int, race bool) Stage {
				args := "props=C05"
				if race {
					args += ",churn=1" // scratch datasets created and deleted all the time while readers look entities up
				}
				return Stage{Name: name, Scenario: "c05conc", Args: args, Children: children, Cases: cases, Race: race, GOMAXPROCS: gmp, Env: []string{c05Hooks}, Timeout: 20 * time.Minute}
			}
			if tier == "thorough" {
				return []Stage{mk("g16", 16, 16, 20, false), mk("g4", 4, 16, 20, false), mk("g2", 2, 16, 20, false), mk("race", 8, 12, 6, true), {Name: "bulk", Scenario: "sdbulk", Args: "props=C05,huge=1", Children: 4, Cases: 2, Timeout: 10 * time.Minute}}
			}
			return []Stage{mk("g16", 16, 6, 3, false), mk("g4", 4, 4, 2, false), mk("g2", 2, 4, 2, false), mk("race", 8, 4, 1, true), {Name: "bulk", Scenario: "sdbulk", Args: "props=C05,huge=1", Children: 1, Cases: 1, Timeout: 10 * time.Minute}}
		},
		Post: func(res *Result) {
			checkRegisters(res, "C05", "not-linearizable")
			raceViolations(res, "C05")
		},
	}
	_ = fmt.Sprint
}
