package main

import (
	"regexp"
	"sort"
	"strings"
)

var lineNo = regexp.MustCompile(`:\d+ \+0x[0-9a-f]+`)
var addr = regexp.MustCompile(`0x[0-9a-f]+`)

// raceKey reduces a race block to the pair of stacks without addresses / line numbers.
func raceKey(b string) string {
	var fr []string
	for _, l := range strings.Split(b, "\n") {
		l = strings.TrimSpace(l)
		if strings.HasPrefix(l, "github.com/") || strings.HasPrefix(l, "runtime.") || strings.HasPrefix(l, "encoding/") {
			if i := strings.Index(l, "("); i > 0 {
				l = l[:i]
			}
			fr = append(fr, l)
		}
		if strings.HasPrefix(l, "Goroutine ") {
			break
		}
	}
	return strings.Join(fr, ">")
}

func dedupeRace(blocks []string) map[string]string {
	m := map[string]string{}
	for _, b := range blocks {
		k := raceKey(b)
		if _, ok := m[k]; !ok {
			m[k] = b
		}
	}
	return m
}

// crashCapable: one side of the race is a runtime map operation; the normal
// runtime aborts the whole process on such an access ("concurrent map ...").
func crashCapable(b string) bool {
	return strings.Contains(b, "runtime.mapassign") || strings.Contains(b, "runtime.mapaccess") ||
		strings.Contains(b, "runtime.mapiter") || strings.Contains(b, "runtime.mapdelete") ||
		strings.Contains(b, "internal/runtime/maps.")
}

func sortedKeys(m map[string]string) []string {
	r := make([]string, 0, len(m))
	for k := range m {
		r = append(r, k)
	}
	sort.Strings(r)
	return r
}

var _ = lineNo
var _ = addr
