package main

import (
	"fmt"
	"sort"
	"time"

	"github.com/anishathalye/porcupine"
)

type regIn struct {
	Write bool
	Val   string
}

var registerModel = porcupine.Model{
	Init: func() interface{} { return "" },
	Step: func(state, input, output interface{}) (bool, interface{}) {
		in := input.(regIn)
		if in.Write {
			return true, in.Val
		}
		return output.(string) == state.(string), state
	},
	DescribeOperation: func(input, output interface{}) string {
		in := input.(regIn)
		if in.Write {
			return fmt.Sprintf("write(%s)", in.Val)
		}
		return fmt.Sprintf("read() -> %v", output)
	},
}

// checkRegisters runs porcupine over the "reg" events, one partition per (case, key).
func checkRegisters(res *Result, prop, class string) {
	parts := map[string][]porcupine.Operation{}
	for _, e := range res.Events {
		if e["k"] != "reg" {
			continue
		}
		cas, _ := e["case"].(string)
		key, _ := e["key"].(string)
		child, _ := e["child"].(string)
		w, _ := e["w"].(bool)
		val, _ := e["val"].(string)
		call, _ := e["call"].(float64)
		ret, _ := e["ret"].(float64)
		c, _ := e["c"].(float64)
		pk := child + "|" + cas + "|" + key
		parts[pk] = append(parts[pk], porcupine.Operation{ClientId: int(c), Input: regIn{Write: w, Val: val}, Call: int64(call), Output: val, Return: int64(ret)})
	}
	keys := make([]string, 0, len(parts))
	for k := range parts {
		keys = append(keys, k)
	}
	sort.Strings(keys)
	ok, illegal, unknown, ops := 0, 0, 0, 0
	for _, k := range keys {
		h := parts[k]
		ops += len(h)
		r, info := porcupine.CheckOperationsVerbose(registerModel, h, 60*time.Second)
		switch r {
		case porcupine.Ok:
			ok++
		case porcupine.Illegal:
			illegal++
			_ = info
			res.Viols = append(res.Viols, Viol{Prop: prop, Class: class, Case: caseOfKey(k),
				Msg: fmt.Sprintf("history of register %s (%d operations) is not linearizable", k, len(h)),
				Raw: map[string]any{"partition": k, "operations": describeOps(h)}})
		default:
			unknown++
			res.Inconclusive = append(res.Inconclusive, map[string]any{"t": "inconclusive", "why": "porcupine-unknown", "partition": k})
		}
	}
	res.Stats["porcupine_partitions_ok"] += int64(ok)
	res.Stats["porcupine_partitions_illegal"] += int64(illegal)
	res.Stats["porcupine_partitions_unknown"] += int64(unknown)
	res.Stats["porcupine_operations"] += int64(ops)
}

func caseOfKey(k string) string {
	// child|case|key
	n := 0
	start := 0
	for i := 0; i < len(k); i++ {
		if k[i] == '|' {
			n++
			if n == 1 {
				start = i + 1
			}
			if n == 2 {
				return k[start:i]
			}
		}
	}
	return ""
}

func describeOps(h []porcupine.Operation) []string {
	var r []string
	for _, o := range h {
		r = append(r, fmt.Sprintf("c%d [%d,%d] %s", o.ClientId, o.Call, o.Return, registerModel.DescribeOperation(o.Input, o.Output)))
	}
	return r
}

type nsIn struct {
	Assert   bool
	Implicit bool // an operation that asserts the expansion as a side effect; the prefix is not observed
}

type nsOut struct {
	Prefix string
	Ok     bool
}

// "unset, or set once forever" per expansion.
var nsModel = porcupine.Model{
	Init: func() interface{} { return "" },
	Step: func(state, input, output interface{}) (bool, interface{}) {
		st := state.(string)
		in := input.(nsIn)
		out := output.(nsOut)
		// state: "" = unset, "?" = set by an implicit assert (prefix not yet observed), else the prefix
		if in.Implicit {
			if st == "" {
				return true, "?"
			}
			return true, st
		}
		if in.Assert {
			if !out.Ok || out.Prefix == "" {
				return false, st
			}
			if st == "" || st == "?" {
				return true, out.Prefix
			}
			return out.Prefix == st, st
		}
		if !out.Ok {
			return st == "", st
		}
		if st == "?" {
			return out.Prefix != "", out.Prefix
		}
		return out.Prefix == st && st != "", st
	},
	DescribeOperation: func(input, output interface{}) string {
		in := input.(nsIn)
		out := output.(nsOut)
		if in.Implicit {
			return "implicit-assert"
		}
		if in.Assert {
			return fmt.Sprintf("assert -> %s", out.Prefix)
		}
		return fmt.Sprintf("lookup -> %s,%v", out.Prefix, out.Ok)
	},
}

func checkNamespaces(res *Result, prop string) {
	parts := map[string][]porcupine.Operation{}
	for _, e := range res.Events {
		if e["k"] != "ns" {
			continue
		}
		cas, _ := e["case"].(string)
		key, _ := e["key"].(string)
		child, _ := e["child"].(string)
		op, _ := e["op"].(string)
		val, _ := e["val"].(string)
		ok, _ := e["ok"].(bool)
		call, _ := e["call"].(float64)
		ret, _ := e["ret"].(float64)
		c, _ := e["c"].(float64)
		pk := child + "|" + cas + "|" + key
		parts[pk] = append(parts[pk], porcupine.Operation{ClientId: int(c), Input: nsIn{Assert: op == "assert", Implicit: op == "implicit"}, Call: int64(call), Output: nsOut{Prefix: val, Ok: ok}, Return: int64(ret)})
	}
	keys := make([]string, 0, len(parts))
	for k := range parts {
		keys = append(keys, k)
	}
	sort.Strings(keys)
	for _, k := range keys {
		h := parts[k]
		res.Stats["porcupine_operations"] += int64(len(h))
		r, _ := porcupine.CheckOperationsVerbose(nsModel, h, 60*time.Second)
		switch r {
		case porcupine.Ok:
			res.Stats["porcupine_partitions_ok"]++
		case porcupine.Illegal:
			res.Stats["porcupine_partitions_illegal"]++
			var d []string
			for _, o := range h {
				d = append(d, fmt.Sprintf("c%d [%d,%d] %s", o.ClientId, o.Call, o.Return, nsModel.DescribeOperation(o.Input, o.Output)))
			}
			res.Viols = append(res.Viols, Viol{Prop: prop, Class: "namespace-history-not-linearizable", Case: caseOfKey(k),
				Msg: fmt.Sprintf("assert/lookup history of expansion %s is not explained by 'unset, or set once forever'", k), Raw: map[string]any{"partition": k, "operations": d}})
		default:
			res.Stats["porcupine_partitions_unknown"]++
			res.Inconclusive = append(res.Inconclusive, map[string]any{"t": "inconclusive", "why": "porcupine-unknown", "partition": k})
		}
	}
}
