package main

import "github.com/anishathalye/porcupine"

var _ = porcupine.Ok
